// c07facts translates the pure leaves of the GraphQL scanner — the rune predicates, tables and
// constants of graphql/scanner/*.go and graphql/token/token.go — (nothing of graphql/parser is read for C07) —
// (with -parser: a few parser constants instead, into a separate file no C07 obligation depends on)
// from the *current* source of the repository into Lean 4 definitions
// (lean/ApiFu/C07/Generated.lean). lean/ApiFu/C07/PropsGenerated.lean proves, for all runes, that every
// generated definition equals the corresponding leaf of the hand-written model (Model.lean), so the
// proved development (scan_eq_spec …) provably speaks about what the source says at the leaves.
//
//	c07facts -repo /repo -out Generated.lean [-fallback Generated.fallback.lean]
//
// go/ast + go/parser only (no type checker: the few types needed are read from the declarations).
//
// Translation (literal, no simplification):
//
//	rune, int values          → Lean `Int`; bool → `Bool`; uint (Mode) → `Nat`
//	rune / int literals       → their value ('\n' → 10, 'é' → 233, 0xfeff → 65279); constant
//	                             expressions of literals are folded exactly
//	x + y, x - y, x * y, -x   → wrap32 (…) for rune operands, wrap64 (…) for int operands (GoInt.lean)
//	== < <= > >=              → decide (x = y) … decide (x ≥ y);  x != y → !decide (x = y)
//	&& || !                   → && || !   (operands have no effects: calls other than the translated pure
//	                             functions and the scanner's accessors are refused)
//	x & y on uint             → x &&& y
//	s.nextRune, s.peek(), s.isDone(), s.offset, s.token, s.mode → parameters nextRune, peek, isDone,
//	                             offset, tok, mode of the generated definition
//	isDigit(x), isSourceCharacter(x), hexRuneValue(x), t.IsIgnored() → the generated definitions
//	token.X, utf8.RuneError   → the constant's value (token.go's iota block; $GOROOT/src/unicode/utf8)
//	return / if / else if / else / switch { case c: } / switch x { case a, b: } / default / x := e
//	                          → if-then-else chains, `let`; every path must return
//	switch s.nextRune { case 'a', 'b': … } of Scan and of the escape branch → a clause-index function
//	                             plus per-clause tables (token constants assigned; decoded escape value)
//
// Anything else (loops inside a translated function, fallthrough, break in a translated switch, other
// calls, other operators, a duplicate case label, an unexpected number of conditions in a function
// whose conditions are extracted by position) makes the tool print `c07facts: cannot translate …`
// naming the construct and exit with status 1.
package main

import (
	"bytes"
	"crypto/sha256"
	"encoding/hex"
	"flag"
	"fmt"
	"go/ast"
	"go/parser"
	"go/printer"
	"go/token"
	"os"
	"os/exec"
	"path/filepath"
	"runtime"
	"sort"
	"strconv"
	"strings"
)

type cannot struct{ msg string }

type kind int

const (
	kBool kind = iota
	kRune
	kInt
	kUint
	kConst // untyped integer / rune constant
)

func (k kind) String() string { return [...]string{"bool", "rune", "int", "uint", "untyped constant"}[k] }

func (k kind) lean() string {
	switch k {
	case kBool:
		return "Bool"
	case kUint:
		return "Nat"
	}
	return "Int"
}

type val struct {
	lean    string
	k       kind
	c       int64
	isConst bool
}

type constVal struct {
	v   int64
	typ string // declared type name ("" = untyped)
}

type tr struct {
	fset   *token.FileSet
	funcs  map[string]*ast.FuncDecl // "pkg.name" or "pkg.Recv.name"
	fields map[string]kind          // Scanner struct fields
	consts map[string]constVal      // "pkg.NAME"
	order  map[string][]string      // pkg → constant names in declaration order
	pure   map[string]kind          // generated pure functions (Lean name) → result kind
	hash   bytes.Buffer
	out    strings.Builder
}

func (t *tr) fail(n ast.Node, format string, a ...any) {
	pos := ""
	if n != nil && t.fset != nil {
		pos = t.fset.Position(n.Pos()).String() + ": "
	}
	panic(cannot{pos + fmt.Sprintf(format, a...)})
}

func (t *tr) src(n ast.Node) string {
	var b bytes.Buffer
	printer.Fprint(&b, t.fset, n)
	return b.String()
}

func lit(v int64) string {
	if v < 0 {
		return fmt.Sprintf("(%d)", v)
	}
	return fmt.Sprintf("%d", v)
}

// ---------------------------------------------------------------------------------------------
// expressions

type param struct {
	name string
	k    kind
}

type env struct {
	t      *tr
	pkg    string
	recv   string         // receiver identifier of the enclosing method ("" for a function)
	recvT  string         // receiver type name
	locals map[string]val // parameters / local variables
	iota   int64          // -1 outside a constant declaration
	used   map[string]kind
	// allowConsume: `s.consumeRune()` may appear (once) and denotes the parameter `consumed`
	allowConsume bool
}

func (t *tr) newEnv(pkg string, fd *ast.FuncDecl) *env {
	e := &env{t: t, pkg: pkg, locals: map[string]val{}, iota: -1, used: map[string]kind{}}
	if fd != nil && fd.Recv != nil && len(fd.Recv.List) == 1 && len(fd.Recv.List[0].Names) == 1 {
		e.recv = fd.Recv.List[0].Names[0].Name
		e.recvT = recvTypeName(fd.Recv.List[0].Type)
	}
	return e
}

func recvTypeName(x ast.Expr) string {
	switch x := x.(type) {
	case *ast.StarExpr:
		return recvTypeName(x.X)
	case *ast.Ident:
		return x.Name
	}
	return "?"
}

// canonical parameter order of the generated definitions (independent of the order of use)
var paramOrder = []string{"r", "t", "consumed", "isDone", "nextRune", "peek", "offset", "v", "tok", "mode",
	"indent", "lineLen", "commonIndent", "i", "nLines"}

func (e *env) use(name string, k kind) val {
	if old, ok := e.used[name]; ok && old != k {
		e.t.fail(nil, "parameter %s used at two types (%s, %s)", name, old, k)
	}
	e.used[name] = k
	return val{lean: name, k: k}
}

func (e *env) params() []param {
	var ps []param
	seen := map[string]bool{}
	for _, n := range paramOrder {
		if k, ok := e.used[n]; ok {
			ps = append(ps, param{n, k})
			seen[n] = true
		}
	}
	var rest []string
	for n := range e.used {
		if !seen[n] {
			rest = append(rest, n)
		}
	}
	sort.Strings(rest)
	for _, n := range rest {
		ps = append(ps, param{n, e.used[n]})
	}
	return ps
}

func isIntLike(k kind) bool { return k == kRune || k == kInt || k == kUint || k == kConst }

func constV(v int64) val { return val{lean: lit(v), k: kConst, c: v, isConst: true} }

func (e *env) expr(x ast.Expr) val {
	t := e.t
	switch x := x.(type) {
	case *ast.ParenExpr:
		return e.expr(x.X)
	case *ast.BasicLit:
		switch x.Kind {
		case token.CHAR:
			r, _, tail, err := strconv.UnquoteChar(x.Value[1:len(x.Value)-1], '\'')
			if err != nil || tail != "" {
				t.fail(x, "rune literal %s", x.Value)
			}
			return constV(int64(r))
		case token.INT:
			v, err := strconv.ParseInt(strings.ReplaceAll(x.Value, "_", ""), 0, 64)
			if err != nil {
				t.fail(x, "integer literal %s", x.Value)
			}
			return constV(v)
		}
		t.fail(x, "literal %s of kind %s", x.Value, x.Kind)
	case *ast.Ident:
		switch x.Name {
		case "true":
			return val{lean: "true", k: kBool}
		case "false":
			return val{lean: "false", k: kBool}
		case "iota":
			if e.iota < 0 {
				t.fail(x, "iota outside a constant declaration")
			}
			return constV(e.iota)
		}
		if v, ok := e.locals[x.Name]; ok {
			if v.isConst {
				return v
			}
			return e.use(v.lean, v.k)
		}
		if c, ok := t.consts[e.pkg+"."+x.Name]; ok {
			return t.constVal(x, c)
		}
		t.fail(x, "identifier %s is neither a parameter, a translated local nor a package constant", x.Name)
	case *ast.SelectorExpr:
		id, ok := x.X.(*ast.Ident)
		if !ok {
			t.fail(x, "selector expression %s", t.src(x))
		}
		if e.recv != "" && id.Name == e.recv {
			if e.recvT != "Scanner" {
				t.fail(x, "field %s of receiver type %s", x.Sel.Name, e.recvT)
			}
			k, ok := t.fields[x.Sel.Name]
			if !ok {
				t.fail(x, "Scanner field %s has no translatable type", x.Sel.Name)
			}
			name := map[string]string{"nextRune": "nextRune", "offset": "offset", "token": "tok", "mode": "mode"}[x.Sel.Name]
			if name == "" {
				t.fail(x, "Scanner field %s is not an input of a leaf predicate", x.Sel.Name)
			}
			return e.use(name, k)
		}
		if c, ok := t.consts[id.Name+"."+x.Sel.Name]; ok {
			return t.constVal(x, c)
		}
		t.fail(x, "selector %s.%s (not the receiver, not a known constant)", id.Name, x.Sel.Name)
	case *ast.CallExpr:
		return e.call(x)
	case *ast.UnaryExpr:
		v := e.expr(x.X)
		switch x.Op {
		case token.NOT:
			if v.k != kBool {
				t.fail(x, "! applied to %s", v.k)
			}
			return val{lean: "(!" + v.lean + ")", k: kBool}
		case token.SUB:
			if v.isConst {
				return constV(-v.c)
			}
			return val{lean: e.wrap(x, v.k, "-"+v.lean), k: v.k}
		case token.ADD:
			if isIntLike(v.k) {
				return v
			}
		}
		t.fail(x, "unary operator %s on %s", x.Op, v.k)
	case *ast.BinaryExpr:
		return e.binary(x)
	}
	t.fail(x, "expression form %T (%s)", x, t.src(x))
	return val{}
}

func (t *tr) constVal(n ast.Node, c constVal) val {
	v := constV(c.v)
	switch c.typ {
	case "":
	case "Token", "rune":
		// typed constants compare with values of their own type only; both are rendered as Int
		if c.typ == "rune" {
			v.k = kRune
		} else {
			v.k = kInt
		}
	case "Mode":
		v.k = kUint
	case "int":
		v.k = kInt
	default:
		t.fail(n, "constant of type %s", c.typ)
	}
	return v
}

func (e *env) wrap(n ast.Node, k kind, s string) string {
	switch k {
	case kRune:
		return "(wrap32 (" + s + "))"
	case kInt:
		return "(wrap64 (" + s + "))"
	}
	e.t.fail(n, "arithmetic on %s", k)
	return ""
}

func (e *env) call(x *ast.CallExpr) val {
	t := e.t
	switch f := x.Fun.(type) {
	case *ast.Ident:
		if k, ok := t.pure[f.Name]; ok && e.pkg == "scanner" {
			if len(x.Args) != 1 {
				t.fail(x, "call of %s with %d arguments", f.Name, len(x.Args))
			}
			a := e.expr(x.Args[0])
			if a.k != kRune && a.k != kConst {
				t.fail(x, "argument of %s is %s, not a rune", f.Name, a.k)
			}
			return val{lean: "(" + f.Name + " " + a.lean + ")", k: k}
		}
		if f.Name == "len" && len(x.Args) == 1 {
			if id, ok := x.Args[0].(*ast.Ident); ok {
				if v, ok := e.locals["len("+id.Name+")"]; ok {
					return e.use(v.lean, v.k)
				}
			}
		}
		t.fail(x, "call of %s (only the translated pure functions may be called in a leaf predicate)", f.Name)
	case *ast.SelectorExpr:
		if len(x.Args) != 0 {
			t.fail(x, "method call %s with arguments", t.src(x))
		}
		// s.peek(), s.isDone(), s.consumeRune()
		if id, ok := f.X.(*ast.Ident); ok && e.recv != "" && id.Name == e.recv && e.recvT == "Scanner" {
			switch f.Sel.Name {
			case "peek":
				t.requireResult("scanner.Scanner.peek", "rune")
				return e.use("peek", kRune)
			case "isDone":
				t.requireResult("scanner.Scanner.isDone", "bool")
				return e.use("isDone", kBool)
			case "consumeRune":
				if !e.allowConsume {
					t.fail(x, "s.consumeRune() (an effect) inside a condition")
				}
				e.allowConsume = false
				t.requireResult("scanner.Scanner.consumeRune", "rune")
				return e.use("consumed", kRune)
			}
			t.fail(x, "method call s.%s()", f.Sel.Name)
		}
		// s.token.IsIgnored()
		if f.Sel.Name == "IsIgnored" {
			recv := e.expr(f.X)
			if _, ok := t.pure["tokenIsIgnored"]; !ok {
				t.fail(x, "IsIgnored used before it was translated")
			}
			return val{lean: "(tokenIsIgnored " + recv.lean + ")", k: kBool}
		}
		t.fail(x, "method call %s", t.src(x))
	}
	t.fail(x, "call %s", t.src(x))
	return val{}
}

func (t *tr) requireResult(key, typ string) {
	fd, ok := t.funcs[key]
	if !ok {
		t.fail(nil, "method %s not found", key)
	}
	if fd.Type.Results == nil || len(fd.Type.Results.List) != 1 || t.src(fd.Type.Results.List[0].Type) != typ {
		t.fail(fd, "%s must have the single result type %s", key, typ)
	}
}

func (e *env) binary(x *ast.BinaryExpr) val {
	t := e.t
	a, b := e.expr(x.X), e.expr(x.Y)
	switch x.Op {
	case token.LAND, token.LOR:
		if a.k != kBool || b.k != kBool {
			t.fail(x, "%s applied to %s and %s", x.Op, a.k, b.k)
		}
		op := "&&"
		if x.Op == token.LOR {
			op = "||"
		}
		return val{lean: "(" + a.lean + " " + op + " " + b.lean + ")", k: kBool}
	case token.EQL, token.NEQ, token.LSS, token.LEQ, token.GTR, token.GEQ:
		if a.k == kBool && b.k == kBool && (x.Op == token.EQL || x.Op == token.NEQ) {
			op := map[token.Token]string{token.EQL: "==", token.NEQ: "!="}[x.Op]
			return val{lean: "(" + a.lean + " " + op + " " + b.lean + ")", k: kBool}
		}
		k := e.unify(x, a, b)
		if a.k == kConst && b.k == kConst {
			k = kConst
		}
		if k == kUint && ((a.isConst && a.c < 0) || (b.isConst && b.c < 0)) {
			t.fail(x, "negative constant compared with an unsigned value")
		}
		op := map[token.Token]string{token.EQL: "=", token.NEQ: "≠", token.LSS: "<", token.LEQ: "≤", token.GTR: ">", token.GEQ: "≥"}[x.Op]
		ty := ""
		if a.isConst && b.isConst {
			ty = " : Int"
		}
		if x.Op == token.NEQ {
			// a != b is !(a == b): keeps every atom an equation or an order relation
			return val{lean: "(!decide ((" + a.lean + ty + ") = " + b.lean + "))", k: kBool}
		}
		return val{lean: "decide ((" + a.lean + ty + ") " + op + " " + b.lean + ")", k: kBool}
	case token.ADD, token.SUB, token.MUL:
		k := e.unify(x, a, b)
		if a.isConst && b.isConst {
			switch x.Op {
			case token.ADD:
				return constV(a.c + b.c)
			case token.SUB:
				return constV(a.c - b.c)
			default:
				return constV(a.c * b.c)
			}
		}
		return val{lean: e.wrap(x, k, a.lean+" "+x.Op.String()+" "+b.lean), k: k}
	case token.SHL:
		if a.isConst && b.isConst && b.c >= 0 && b.c < 62 {
			r := constV(a.c << uint(b.c))
			r.k = a.k
			return r
		}
		t.fail(x, "shift of a non-constant")
	case token.AND:
		k := e.unify(x, a, b)
		if k != kUint {
			t.fail(x, "& on %s (only unsigned operands are translated)", k)
		}
		return val{lean: "(" + a.lean + " &&& " + b.lean + ")", k: kUint}
	}
	t.fail(x, "binary operator %s", x.Op)
	return val{}
}

// unify returns the common integer kind of two operands (an untyped constant adopts the other's).
func (e *env) unify(n ast.Node, a, b val) kind {
	if !isIntLike(a.k) || !isIntLike(b.k) {
		e.t.fail(n, "integer operator applied to %s and %s", a.k, b.k)
	}
	switch {
	case a.k == kConst:
		return b.k
	case b.k == kConst:
		return a.k
	case a.k == b.k:
		return a.k
	}
	e.t.fail(n, "operands of different types (%s, %s)", a.k, b.k)
	return kConst
}

func (e *env) boolExpr(x ast.Expr) string {
	v := e.expr(x)
	if v.k != kBool {
		e.t.fail(x, "condition of type %s", v.k)
	}
	return v.lean
}

// ---------------------------------------------------------------------------------------------
// statements of a translated function (continuation-passing: `rest` runs when `list` falls through)

func (e *env) stmts(list, rest []ast.Stmt, ind string, res kind, end ast.Node) string {
	t := e.t
	if len(list) == 0 {
		if len(rest) == 0 {
			t.fail(end, "a path reaches the end of the function without a return")
		}
		return e.stmts(rest, nil, ind, res, end)
	}
	s, tail := list[0], list[1:]
	after := append(append([]ast.Stmt{}, tail...), rest...)
	switch s := s.(type) {
	case *ast.ReturnStmt:
		if len(s.Results) != 1 {
			t.fail(s, "return with %d results", len(s.Results))
		}
		v := e.expr(s.Results[0])
		if res == kBool && v.k != kBool || res != kBool && !isIntLike(v.k) {
			t.fail(s, "return of a %s where %s is declared", v.k, res)
		}
		if res != kBool && v.k != kConst && v.k != res {
			t.fail(s, "return of a %s where %s is declared", v.k, res)
		}
		return ind + v.lean + "\n"
	case *ast.BlockStmt:
		return e.stmts(s.List, after, ind, res, end)
	case *ast.IfStmt:
		if s.Init != nil {
			t.fail(s, "if statement with an init clause inside a translated function")
		}
		var b strings.Builder
		fmt.Fprintf(&b, "%sif %s then\n", ind, e.boolExpr(s.Cond))
		b.WriteString(e.stmts(s.Body.List, after, ind+"  ", res, end))
		fmt.Fprintf(&b, "%selse\n", ind)
		switch el := s.Else.(type) {
		case nil:
			b.WriteString(e.stmts(after, nil, ind+"  ", res, end))
		case *ast.BlockStmt:
			b.WriteString(e.stmts(el.List, after, ind+"  ", res, end))
		case *ast.IfStmt:
			b.WriteString(e.stmts([]ast.Stmt{el}, after, ind+"  ", res, end))
		default:
			t.fail(s, "else form %T", el)
		}
		return b.String()
	case *ast.SwitchStmt:
		if s.Init != nil {
			t.fail(s, "switch with an init clause")
		}
		var tag *val
		if s.Tag != nil {
			v := e.expr(s.Tag)
			if !isIntLike(v.k) {
				t.fail(s.Tag, "switch on a %s", v.k)
			}
			tag = &v
		}
		var clauses []*ast.CaseClause
		var dflt *ast.CaseClause
		for _, c := range s.Body.List {
			cc := c.(*ast.CaseClause)
			if cc.List == nil {
				dflt = cc
			} else {
				clauses = append(clauses, cc)
			}
		}
		var build func(i int, ind string) string
		build = func(i int, ind string) string {
			if i == len(clauses) {
				if dflt != nil {
					return e.stmts(dflt.Body, after, ind, res, end)
				}
				return e.stmts(after, nil, ind, res, end)
			}
			var b strings.Builder
			fmt.Fprintf(&b, "%sif %s then\n", ind, e.caseCond(tag, clauses[i]))
			b.WriteString(e.stmts(clauses[i].Body, after, ind+"  ", res, end))
			fmt.Fprintf(&b, "%selse\n", ind)
			b.WriteString(build(i+1, ind+"  "))
			return b.String()
		}
		return build(0, ind)
	case *ast.AssignStmt:
		if len(s.Lhs) != 1 || len(s.Rhs) != 1 || s.Tok != token.DEFINE {
			t.fail(s, "assignment %s (only `x := e` is translated)", t.src(s))
		}
		id, ok := s.Lhs[0].(*ast.Ident)
		if !ok || id.Name == "_" {
			t.fail(s, "assignment to something other than a variable")
		}
		v := e.expr(s.Rhs[0])
		if v.k == kConst {
			t.fail(s, "local %s of an untyped constant (its type would be int, not rune)", id.Name)
		}
		e.locals[id.Name] = val{lean: id.Name, k: v.k}
		defer delete(e.used, id.Name) // a let-bound name is not a parameter
		body := e.stmts(tail, rest, ind, res, end)
		return fmt.Sprintf("%slet %s : %s := %s\n", ind, id.Name, v.k.lean(), v.lean) + body
	case *ast.EmptyStmt:
		return e.stmts(tail, rest, ind, res, end)
	case *ast.BranchStmt:
		t.fail(s, "%s inside a translated function", s.Tok)
	}
	t.fail(s, "statement form %T (%s)", s, strings.SplitN(t.src(s), "\n", 2)[0])
	return ""
}

func (e *env) caseCond(tag *val, cc *ast.CaseClause) string {
	var parts []string
	for _, l := range cc.List {
		if tag == nil {
			parts = append(parts, e.boolExpr(l))
			continue
		}
		v := e.expr(l)
		e.unify(l, *tag, v)
		parts = append(parts, "decide ("+tag.lean+" = "+v.lean+")")
	}
	if len(parts) == 1 {
		return parts[0]
	}
	return "(" + strings.Join(parts, " || ") + ")"
}

// ---------------------------------------------------------------------------------------------
// emitting

func (t *tr) comment(title string, nodes ...ast.Node) {
	t.out.WriteString("/- " + title + "\n")
	for _, n := range nodes {
		s := t.src(n)
		t.hash.WriteString(s)
		t.hash.WriteString("\n")
		for _, l := range strings.Split(s, "\n") {
			l = strings.ReplaceAll(strings.ReplaceAll(l, "-/", "- /"), "/-", "/ -")
			t.out.WriteString("    " + l + "\n")
		}
	}
	t.out.WriteString("-/\n")
}

func paramList(ps []param) string {
	var b strings.Builder
	for _, p := range ps {
		fmt.Fprintf(&b, " (%s : %s)", p.name, p.k.lean())
	}
	return b.String()
}

func kindOfType(s string) (kind, bool) {
	switch s {
	case "rune", "int32":
		return kRune, true
	case "int":
		return kInt, true
	case "bool":
		return kBool, true
	case "Mode", "uint":
		return kUint, true
	case "token.Token", "Token":
		return kInt, true
	}
	return 0, false
}

// function translates a whole function / method with value parameters and one result.
func (t *tr) function(key, leanName string) {
	fd := t.fn(key)
	pkg := strings.SplitN(key, ".", 2)[0]
	e := t.newEnv(pkg, fd)
	var ps []param
	if fd.Recv != nil {
		// value receiver of an integer type (Token)
		rt := t.src(fd.Recv.List[0].Type)
		k, ok := kindOfType(rt)
		if !ok || e.recv == "" {
			t.fail(fd, "receiver of type %s", rt)
		}
		if rt == "Token" {
			t.requireTokenInt()
		}
		ps = append(ps, param{e.recv, k})
		e.locals[e.recv] = val{lean: e.recv, k: k}
		e.recv = ""
	}
	for _, f := range fd.Type.Params.List {
		k, ok := kindOfType(t.src(f.Type))
		if !ok {
			t.fail(f, "parameter of type %s", t.src(f.Type))
		}
		for _, n := range f.Names {
			ps = append(ps, param{n.Name, k})
			e.locals[n.Name] = val{lean: n.Name, k: k}
		}
	}
	if fd.Type.Results == nil || len(fd.Type.Results.List) != 1 || len(fd.Type.Results.List[0].Names) > 0 {
		t.fail(fd, "%s must have exactly one unnamed result", key)
	}
	res, ok := kindOfType(t.src(fd.Type.Results.List[0].Type))
	if !ok {
		t.fail(fd, "result of type %s", t.src(fd.Type.Results.List[0].Type))
	}
	body := e.stmts(fd.Body.List, nil, "  ", res, fd)
	t.comment(key+":", fd)
	fmt.Fprintf(&t.out, "def %s%s : %s :=\n%s\n", leanName, paramList(ps), res.lean(), body)
	t.pure[leanName] = res
}

func (t *tr) requireTokenInt() {
	if c, ok := t.consts["token.#Token"]; !ok || c.typ != "int" {
		t.fail(nil, "token.Token is not declared as `type Token int`")
	}
}

// cond emits `def name (params) : Bool := <x>` for a condition of a method.
func (t *tr) cond(e *env, name, doc string, x ast.Expr) {
	e.used = map[string]kind{}
	body := e.boolExpr(x)
	t.comment(doc, x)
	fmt.Fprintf(&t.out, "def %s%s : Bool :=\n  %s\n\n", name, paramList(e.params()), body)
}

func (t *tr) fn(key string) *ast.FuncDecl {
	fd, ok := t.funcs[key]
	if !ok || fd.Body == nil {
		t.fail(nil, "function %s not found", key)
	}
	return fd
}

// inspect helpers ------------------------------------------------------------------------------

func ifsOf(root ast.Node) (out []*ast.IfStmt) {
	ast.Inspect(root, func(n ast.Node) bool {
		if _, ok := n.(*ast.FuncLit); ok {
			return false
		}
		if s, ok := n.(*ast.IfStmt); ok {
			out = append(out, s)
		}
		return true
	})
	return
}

func forsOf(root ast.Node) (out []*ast.ForStmt) {
	ast.Inspect(root, func(n ast.Node) bool {
		if _, ok := n.(*ast.FuncLit); ok {
			return false
		}
		if s, ok := n.(*ast.ForStmt); ok {
			out = append(out, s)
		}
		return true
	})
	return
}

func (t *tr) isRecvField(x ast.Expr, recv, field string) bool {
	s, ok := x.(*ast.SelectorExpr)
	if !ok {
		return false
	}
	id, ok := s.X.(*ast.Ident)
	return ok && id.Name == recv && s.Sel.Name == field
}

func (t *tr) switchesOn(root ast.Node, recv, field string) (out []*ast.SwitchStmt) {
	ast.Inspect(root, func(n ast.Node) bool {
		if s, ok := n.(*ast.SwitchStmt); ok && s.Tag != nil && t.isRecvField(s.Tag, recv, field) {
			out = append(out, s)
		}
		return true
	})
	return
}

func callsMethod(root ast.Node, recv, name string) bool {
	found := false
	ast.Inspect(root, func(n ast.Node) bool {
		if c, ok := n.(*ast.CallExpr); ok {
			if s, ok := c.Fun.(*ast.SelectorExpr); ok && s.Sel.Name == name {
				if id, ok := s.X.(*ast.Ident); ok && id.Name == recv {
					found = true
				}
			}
		}
		return true
	})
	return found
}

func callsFunc(root ast.Node, name string) bool {
	found := false
	ast.Inspect(root, func(n ast.Node) bool {
		if c, ok := n.(*ast.CallExpr); ok {
			if id, ok := c.Fun.(*ast.Ident); ok && id.Name == name {
				found = true
			}
		}
		return true
	})
	return found
}

// clauseIndexFn writes `def name (nextRune : Int) : Nat` returning the index (source order) of the clause
// of a `switch s.nextRune` that is taken; returns the clauses and the index used for "default"
// (= number of clauses when there is no default clause).
func (t *tr) clauseIndexFn(e *env, sw *ast.SwitchStmt, name string) (clauses []*ast.CaseClause, dflt int) {
	if sw.Init != nil {
		t.fail(sw, "switch with an init clause")
	}
	dflt = -1
	seen := map[int64]bool{}
	var b strings.Builder
	ind := "  "
	for i, c := range sw.Body.List {
		cc := c.(*ast.CaseClause)
		clauses = append(clauses, cc)
		if cc.List == nil {
			dflt = i
			continue
		}
		var parts []string
		for _, l := range cc.List {
			v := e.expr(l)
			if !v.isConst {
				t.fail(l, "case label %s is not a constant", t.src(l))
			}
			if seen[v.c] {
				t.fail(l, "duplicate case label %s", t.src(l))
			}
			seen[v.c] = true
			parts = append(parts, "decide (nextRune = "+lit(v.c)+")")
		}
		fmt.Fprintf(&b, "%sif %s then %d\n%selse\n", ind, strings.Join(parts, " || "), i, ind)
		ind += "  "
		ast.Inspect(cc, func(n ast.Node) bool {
			if br, ok := n.(*ast.BranchStmt); ok && br.Tok == token.FALLTHROUGH {
				t.fail(br, "fallthrough")
			}
			return true
		})
	}
	if dflt < 0 {
		dflt = len(clauses)
	}
	fmt.Fprintf(&b, "%s%d\n", ind, dflt)
	fmt.Fprintf(&t.out, "def %s (nextRune : Int) : Nat :=\n%s\n", name, b.String())
	return
}

// ---------------------------------------------------------------------------------------------
// the facts

func (t *tr) tokenFacts() {
	t.out.WriteString("/-! ## graphql/token/token.go -/\n\n")
	var names []string
	for _, n := range t.order["token"] {
		if t.consts["token."+n].typ == "Token" {
			names = append(names, n)
		}
	}
	if len(names) == 0 {
		t.fail(nil, "no constants of type Token in token.go")
	}
	t.requireTokenInt()
	t.out.WriteString("/-- The constants of type `Token` in declaration order with their values (iota evaluated). -/\n")
	t.out.WriteString("def tokenConstants : List (String × Int) :=\n  [")
	for i, n := range names {
		if i > 0 {
			t.out.WriteString(", ")
		}
		fmt.Fprintf(&t.out, "(%q, %s)", n, lit(t.consts["token."+n].v))
		fmt.Fprintf(&t.hash, "token.%s=%d\n", n, t.consts["token."+n].v)
	}
	t.out.WriteString("]\n\n")
	t.function("token.Token.IsIgnored", "tokenIsIgnored")
}

func (t *tr) scannerFacts() {
	t.out.WriteString("/-! ## graphql/scanner/int_value.go, scanner.go: rune classes -/\n\n")
	t.function("scanner.isDigit", "isDigit")
	t.function("scanner.isSourceCharacter", "isSourceCharacter")
	t.function("scanner.hexRuneValue", "hexRuneValue")

	// consumeName: `if r := s.nextRune; <start>` … `for … { if r := s.nextRune; <continue> …`
	{
		fd := t.fn("scanner.Scanner.consumeName")
		e := t.newEnv("scanner", fd)
		var ifs []*ast.IfStmt
		for _, s := range ifsOf(fd.Body) {
			if a, ok := s.Init.(*ast.AssignStmt); ok && a.Tok == token.DEFINE && len(a.Lhs) == 1 && len(a.Rhs) == 1 &&
				t.isRecvField(a.Rhs[0], e.recv, "nextRune") {
				if id, ok := a.Lhs[0].(*ast.Ident); ok && id.Name == "r" {
					ifs = append(ifs, s)
					continue
				}
			}
			t.fail(s, "consumeName: an if statement that is not of the form `if r := s.nextRune; cond`")
		}
		if len(ifs) != 2 || !(ifs[1].Pos() > ifs[0].Body.Pos() && ifs[1].End() < ifs[0].Body.End()) {
			t.fail(fd, "consumeName: expected `if r := s.nextRune; start { … for … { if r := s.nextRune; continue {…} } }` (found %d such ifs)", len(ifs))
		}
		fs := forsOf(fd.Body)
		if len(fs) != 1 || !(ifs[1].Pos() > fs[0].Body.Pos() && ifs[1].End() < fs[0].Body.End()) {
			t.fail(fd, "consumeName: the second test is not inside the (single) loop")
		}
		e.locals["r"] = val{lean: "r", k: t.fields["nextRune"]}
		t.cond(e, "nameStart", "consumeName: the test on the first rune (r := s.nextRune)", ifs[0].Cond)
		t.cond(e, "nameContinue", "consumeName: the test on every further rune (r := s.nextRune)", ifs[1].Cond)
		t.cond(e, "nameLoop", "consumeName: the loop condition", fs[0].Cond)
	}

	// consumeRune: the line-counting test
	{
		fd := t.fn("scanner.Scanner.consumeRune")
		e := t.newEnv("scanner", fd)
		ifs := ifsOf(fd.Body)
		first, ok := fd.Body.List[0].(*ast.AssignStmt)
		if len(ifs) != 1 || !ok || first.Tok != token.DEFINE || len(first.Lhs) != 1 || t.src(first.Lhs[0]) != "r" ||
			!t.isRecvField(first.Rhs[0], e.recv, "nextRune") {
			t.fail(fd, "consumeRune: expected `r := s.nextRune` first and exactly one if statement")
		}
		e.locals["r"] = val{lean: "r", k: t.fields["nextRune"]}
		t.cond(e, "consumeRuneNewLine", "consumeRune: does the consumed rune r end a line? (nextRune is the rune *after* r)", ifs[0].Cond)
	}

	// readNextRune: the value of s.nextRune at the end of the input; New: the initial position
	{
		fd := t.fn("scanner.Scanner.readNextRune")
		e := t.newEnv("scanner", fd)
		first, ok := fd.Body.List[0].(*ast.IfStmt)
		if !ok || first.Init != nil || t.src(first.Cond) != e.recv+".isDone()" {
			t.fail(fd, "readNextRune: does not start with `if s.isDone() {`")
		}
		var eof *val
		for _, st := range first.Body.List {
			if a, ok := st.(*ast.AssignStmt); ok && a.Tok == token.ASSIGN && len(a.Lhs) == 1 && t.isRecvField(a.Lhs[0], e.recv, "nextRune") {
				v := e.expr(a.Rhs[0])
				if !v.isConst {
					t.fail(a, "readNextRune: s.nextRune at the end of the input is not a constant")
				}
				eof = &v
			}
		}
		if eof == nil {
			t.fail(first, "readNextRune: the end-of-input branch does not assign s.nextRune")
		}
		t.comment("readNextRune: at the end of the input", first.Cond, first.Body)
		fmt.Fprintf(&t.out, "def endOfInputRune : Int := %s\n\n", lit(eof.c))

		nf := t.fn("scanner.New")
		line, col := int64(-1), int64(-1)
		ast.Inspect(nf.Body, func(n ast.Node) bool {
			cl, ok := n.(*ast.CompositeLit)
			if !ok || t.src(cl.Type) != "Scanner" {
				return true
			}
			for _, el := range cl.Elts {
				kv, ok := el.(*ast.KeyValueExpr)
				if !ok {
					t.fail(el, "New: Scanner literal without field names")
				}
				switch t.src(kv.Key) {
				case "line", "column":
					ne := t.newEnv("scanner", nil)
					v := ne.expr(kv.Value)
					if !v.isConst {
						t.fail(kv, "New: initial %s is not a constant", t.src(kv.Key))
					}
					if t.src(kv.Key) == "line" {
						line = v.c
					} else {
						col = v.c
					}
				case "offset":
					t.fail(kv, "New: initial offset given explicitly")
				}
			}
			return true
		})
		if line < 0 || col < 0 {
			t.fail(nf, "New: no Scanner literal with constant line and column")
		}
		fmt.Fprintf(&t.out, "/-- `New`: `line: %d, column: %d` (offset is the zero value). -/\ndef initialLine : Int := %d\ndef initialColumn : Int := %d\n\n", line, col, line, col)
		fmt.Fprintf(&t.hash, "New line %d column %d\n", line, col)

		sv := t.fn("scanner.Scanner.StringValue")
		se := t.newEnv("scanner", sv)
		ifs := ifsOf(sv.Body)
		if len(ifs) != 1 || ifs[0].Else == nil || !strings.Contains(t.src(ifs[0].Body), "tokenStringValue") || !strings.Contains(t.src(ifs[0].Else), "Literal()") {
			t.fail(sv, "StringValue: expected `if cond { return s.tokenStringValue } else { return s.Literal() }`")
		}
		t.cond(se, "stringValueIsDecoded", "StringValue(): the decoded value (not the literal text) is returned iff", ifs[0].Cond)
	}

	t.out.WriteString("/-! ## scanner.go: the dispatch of Scan -/\n\n")
	fd := t.fn("scanner.Scanner.Scan")
	e := t.newEnv("scanner", fd)
	sws := t.switchesOn(fd.Body, e.recv, "nextRune")
	if len(sws) != 1 {
		t.fail(fd, "Scan: expected exactly one `switch s.nextRune` (found %d)", len(sws))
	}
	if t.fields["token"] != kInt {
		t.fail(fd, "Scanner.token is not a token.Token")
	}
	t.comment("Scan: the case labels of `switch s.nextRune` (clause bodies omitted)", labelsOnly(sws[0])...)
	clauses, dflt := t.clauseIndexFn(e, sws[0], "scanCase")
	var toks, errs strings.Builder
	var bom, comment, lineTerm, dot *ast.CaseClause
	for i, cc := range clauses {
		set := map[int64]bool{}
		ast.Inspect(cc, func(n ast.Node) bool {
			a, ok := n.(*ast.AssignStmt)
			if !ok {
				return true
			}
			for j, l := range a.Lhs {
				if !t.isRecvField(l, e.recv, "token") {
					continue
				}
				if a.Tok != token.ASSIGN || len(a.Rhs) != len(a.Lhs) {
					t.fail(a, "assignment to s.token of the form %s", t.src(a))
				}
				sel, ok := a.Rhs[j].(*ast.SelectorExpr)
				if !ok {
					t.fail(a, "s.token is assigned %s, not a token constant", t.src(a.Rhs[j]))
				}
				c, ok := t.consts[t.src(sel)]
				if !ok || c.typ != "Token" {
					t.fail(a, "s.token is assigned %s, not a token constant", t.src(sel))
				}
				set[c.v] = true
			}
			return true
		})
		var vs []int64
		for v := range set {
			vs = append(vs, v)
		}
		sort.Slice(vs, func(a, b int) bool { return vs[a] < vs[b] })
		var ss []string
		for _, v := range vs {
			ss = append(ss, lit(v))
		}
		fmt.Fprintf(&toks, "  | %d => [%s]\n", i, strings.Join(ss, ", "))
		fmt.Fprintf(&errs, "  | %d => %v\n", i, callsMethod(cc, e.recv, "errorf"))
		fmt.Fprintf(&t.hash, "scan clause %d: tokens %v errorf %v\n", i, vs, callsMethod(cc, e.recv, "errorf"))
		for _, l := range cc.List {
			if v := e.expr(l); v.isConst {
				switch v.c {
				case 0xfeff:
					bom = cc
				case '#':
					comment = cc
				case '\r':
					lineTerm = cc
				case '.':
					dot = cc
				}
			}
		}
	}
	_ = dflt
	t.out.WriteString("/-- The token constants assigned to `s.token` anywhere in the body of clause `i` (values, ascending, without\n    repetition). A clause that assigns none leaves `token.INVALID`. -/\n")
	fmt.Fprintf(&t.out, "def scanCaseTokens : Nat → List Int\n%s  | _ => []\n\n", toks.String())
	t.out.WriteString("/-- Does the body of clause `i` call `s.errorf` directly? (a fingerprint of the clause, not a semantic claim) -/\n")
	fmt.Fprintf(&t.out, "def scanCaseCallsErrorf : Nat → Bool\n%s  | _ => false\n\n", errs.String())

	if bom == nil || comment == nil || lineTerm == nil || dot == nil {
		t.fail(sws[0], "Scan: no clause for one of 0xfeff, '#', '\\r', '.'")
	}
	// case 0xfeff: `if s.offset == 0 { s.token = UNICODE_BOM } else { errorf }`
	if ifs := ifsOf(bom); len(ifs) == 1 && ifs[0].Else != nil && !callsMethod(ifs[0].Body, e.recv, "errorf") && callsMethod(ifs[0].Else, e.recv, "errorf") {
		t.cond(e, "bomAccepted", "Scan, case 0xfeff: the byte order mark is a token (no error) iff", ifs[0].Cond)
	} else {
		t.fail(bom, "Scan, case 0xfeff: expected `if cond { s.token = … } else { s.errorf(…) }`")
	}
	// case '#': the loop condition and the SourceCharacter test
	if fs, ifs := forsOf(comment), ifsOf(comment); len(fs) == 1 && len(ifs) == 1 && callsMethod(ifs[0].Body, e.recv, "errorf") && ifs[0].Else == nil {
		t.cond(e, "commentLoop", "Scan, case '#': the comment goes on while", fs[0].Cond)
		t.cond(e, "commentIllegal", "Scan, case '#': an error is recorded for the next rune iff", ifs[0].Cond)
	} else {
		t.fail(comment, "Scan, case '#': expected one loop containing one `if cond { s.errorf(…) }`")
	}
	// case '\r', '\n': CRLF
	if ifs := ifsOf(lineTerm); len(ifs) == 1 && ifs[0].Else == nil {
		e.allowConsume = true
		t.cond(e, "lineTerminatorCRLF", "Scan, case '\\r', '\\n': after consuming one rune (`consumed`), a second one is consumed iff", ifs[0].Cond)
		if e.allowConsume {
			t.fail(lineTerm, "Scan, case '\\r': the condition does not consume a rune")
		}
	} else {
		t.fail(lineTerm, "Scan, case '\\r', '\\n': expected exactly one if statement")
	}
	// case '.': two tests for a further '.'
	if ifs := ifsOf(dot); len(ifs) == 2 && callsMethod(ifs[0].Body, e.recv, "errorf") && callsMethod(ifs[1].Body, e.recv, "errorf") {
		t.cond(e, "ellipsisMissing2", "Scan, case '.': error unless the second rune is a '.'", ifs[0].Cond)
		t.cond(e, "ellipsisMissing3", "Scan, case '.': error unless the third rune is a '.'", ifs[1].Cond)
	} else {
		t.fail(dot, "Scan, case '.': expected two `if cond { s.errorf(…); break }`")
	}
	// the filter after the switch
	{
		var after []*ast.IfStmt
		for _, s := range ifsOf(fd.Body) {
			if s.Pos() > sws[0].End() {
				after = append(after, s)
			}
		}
		if len(after) != 1 || len(after[0].Body.List) != 1 {
			t.fail(fd, "Scan: expected exactly one if statement after the switch")
		}
		if br, ok := after[0].Body.List[0].(*ast.BranchStmt); !ok || br.Tok != token.CONTINUE {
			t.fail(after[0], "Scan: the if after the switch does not `continue`")
		}
		t.cond(e, "scanSkips", "Scan: the token is not returned (the loop continues) iff", after[0].Cond)
	}

	if c, ok := t.consts["scanner.ScanIgnored"]; ok && c.typ == "Mode" {
		fmt.Fprintf(&t.out, "/-- `ScanIgnored Mode = 1 << iota`. -/\ndef scanIgnoredBit : Nat := %d\n\n", c.v)
		fmt.Fprintf(&t.hash, "ScanIgnored=%d\n", c.v)
	} else {
		t.fail(nil, "scanner.ScanIgnored not found")
	}

	t.out.WriteString("/-! ## int_value.go, float_value.go: the conditions, in source order -/\n\n")
	t.condsByPosition("scanner.Scanner.consumeIntegerPart",
		[]string{"intPartMinus", "intPartZero", "intPartNoDigit"}, []string{"intPartLoop"})
	t.condsByPosition("scanner.Scanner.consumeFractionalPart",
		[]string{"fracPartAbsent"}, []string{"fracPartLoop"})
	t.condsByPosition("scanner.Scanner.consumeExponentPart",
		[]string{"expPartAbsent", "expPartSign", "expPartDigitMissing"}, []string{"expPartLoop"})

	t.stringFacts()
	t.blockFacts()
}

func labelsOnly(sw *ast.SwitchStmt) []ast.Node {
	var out []ast.Node
	for _, c := range sw.Body.List {
		cc := c.(*ast.CaseClause)
		out = append(out, &ast.CaseClause{List: cc.List})
	}
	return out
}

// condsByPosition emits the if conditions and loop conditions of a small method, named by position.
func (t *tr) condsByPosition(key string, ifNames, forNames []string) {
	fd := t.fn(key)
	e := t.newEnv("scanner", fd)
	ifs, fs := ifsOf(fd.Body), forsOf(fd.Body)
	if len(ifs) != len(ifNames) || len(fs) != len(forNames) {
		t.fail(fd, "%s: expected %d if statements and %d loops (found %d and %d); the conditions are extracted by position",
			key, len(ifNames), len(forNames), len(ifs), len(fs))
	}
	for i, s := range ifs {
		if s.Init != nil {
			t.fail(s, "%s: if statement with an init clause", key)
		}
		t.cond(e, ifNames[i], fmt.Sprintf("%s: if statement %d", key, i+1), s.Cond)
	}
	for i, s := range fs {
		if s.Init != nil || s.Post != nil || s.Cond == nil {
			t.fail(s, "%s: loop with init/post clause or without condition", key)
		}
		t.cond(e, forNames[i], fmt.Sprintf("%s: loop %d", key, i+1), s.Cond)
	}
}

func (t *tr) stringFacts() {
	t.out.WriteString("/-! ## string_value.go: consumeStringValue -/\n\n")
	fd := t.fn("scanner.Scanner.consumeStringValue")
	e := t.newEnv("scanner", fd)
	sws := t.switchesOn(fd.Body, e.recv, "nextRune")
	if len(sws) != 1 {
		t.fail(fd, "consumeStringValue: expected exactly one `switch s.nextRune` (found %d)", len(sws))
	}
	sw := sws[0]
	t.comment("consumeStringValue: the escape switch", sw)
	clauses, dflt := t.clauseIndexFn(e, sw, "escapeCase")
	if dflt >= len(clauses) {
		t.fail(sw, "escape switch without a default clause")
	}
	var vals strings.Builder
	unicode := -1
	for i, cc := range clauses {
		if cc.List == nil {
			// default: an error, nothing appended
			if !callsMethod(cc, e.recv, "errorf") || len(cc.Body) != 1 {
				t.fail(cc, "escape switch: the default clause is not a single s.errorf call")
			}
			fmt.Fprintf(&vals, "  | %d => none   -- default: s.errorf\n", i)
			continue
		}
		if len(cc.Body) == 1 {
			if a, ok := cc.Body[0].(*ast.AssignStmt); ok && a.Tok == token.ADD_ASSIGN && len(a.Lhs) == 1 && t.src(a.Lhs[0]) == "value" {
				call, ok := a.Rhs[0].(*ast.CallExpr)
				if !ok || t.src(call.Fun) != "string" || len(call.Args) != 1 {
					t.fail(a, "escape switch: value += %s is not a string(rune) conversion", t.src(a.Rhs[0]))
				}
				e.used = map[string]kind{}
				v := e.expr(call.Args[0])
				if !(v.isConst || (v.lean == "nextRune" && v.k == kRune)) {
					t.fail(a, "escape switch: string(%s) is neither a constant nor s.nextRune", t.src(call.Args[0]))
				}
				fmt.Fprintf(&vals, "  | %d => some %s\n", i, v.lean)
				continue
			}
		}
		if callsFunc(cc, "hexRuneValue") {
			if unicode >= 0 {
				t.fail(cc, "escape switch: two clauses call hexRuneValue")
			}
			unicode = i
			fmt.Fprintf(&vals, "  | %d => none   -- the \\u clause\n", i)
			continue
		}
		t.fail(cc, "escape switch: clause body is neither `value += string(…)` nor the \\u loop")
	}
	if unicode < 0 {
		t.fail(sw, "escape switch: no clause calls hexRuneValue")
	}
	t.out.WriteString("/-- The rune appended to `value` by clause `i` of the escape switch (`value += string(x)`), `none` for the\n    `\\u` clause and the default clause (an error). -/\n")
	fmt.Fprintf(&t.out, "def escapeCaseValue (nextRune : Int) : Nat → Option Int\n%s  | _ => none\n\n", vals.String())
	fmt.Fprintf(&t.out, "/-- Index of the clause that decodes `\\uXXXX` (the one calling hexRuneValue). -/\ndef escapeUnicodeCase : Nat := %d\n\n", unicode)
	fmt.Fprintf(&t.out, "/-- Index of the default clause (`s.errorf(\"illegal escape sequence\")`). -/\ndef escapeDefaultCase : Nat := %d\n\n", dflt)

	// the \u loop: for i := 0; i < N; i++ { if v := hexRuneValue(s.nextRune); v < 0 {…} else { code = (code << K) | v … } }
	uc := clauses[unicode]
	fs := forsOf(uc)
	if len(fs) != 1 {
		t.fail(uc, "\\u clause: expected exactly one loop")
	}
	loop := fs[0]
	n, ok := loopBound(loop)
	if !ok {
		t.fail(loop, "\\u clause: loop is not `for i := 0; i < N; i++`")
	}
	ifs := ifsOf(loop)
	if len(ifs) != 1 {
		t.fail(loop, "\\u clause: expected exactly one if statement in the loop")
	}
	a, ok := ifs[0].Init.(*ast.AssignStmt)
	if !ok || a.Tok != token.DEFINE || len(a.Lhs) != 1 || t.src(a.Lhs[0]) != "v" || t.src(a.Rhs[0]) != "hexRuneValue("+e.recv+".nextRune)" {
		t.fail(ifs[0], "\\u clause: expected `if v := hexRuneValue(s.nextRune); cond`")
	}
	if !callsMethod(ifs[0].Body, e.recv, "errorf") || ifs[0].Else == nil {
		t.fail(ifs[0], "\\u clause: the then-branch must report the error, the else-branch accumulate")
	}
	shift := int64(-1)
	ast.Inspect(ifs[0].Else, func(nd ast.Node) bool {
		as, ok := nd.(*ast.AssignStmt)
		if !ok || len(as.Lhs) != 1 || t.src(as.Lhs[0]) != "code" {
			return true
		}
		// code = (code << K) | v
		if b, ok := as.Rhs[0].(*ast.BinaryExpr); ok && as.Tok == token.ASSIGN && b.Op == token.OR && t.src(b.Y) == "v" {
			x := b.X
			if p, ok := x.(*ast.ParenExpr); ok {
				x = p.X
			}
			if sh, ok := x.(*ast.BinaryExpr); ok && sh.Op == token.SHL && t.src(sh.X) == "code" {
				if k := e.expr(sh.Y); k.isConst {
					shift = k.c
					return true
				}
			}
		}
		t.fail(as, "\\u clause: assignment to code is not `code = (code << K) | v`")
		return true
	})
	if shift < 0 {
		t.fail(ifs[0], "\\u clause: no `code = (code << K) | v`")
	}
	e.locals["v"] = val{lean: "v", k: t.pure["hexRuneValue"]}
	t.cond(e, "hexInvalid", "consumeStringValue, \\u loop: with v := hexRuneValue(s.nextRune), the escape is illegal iff", ifs[0].Cond)
	delete(e.locals, "v")
	fmt.Fprintf(&t.out, "/-- `for i := 0; i < %d; i++` — number of hex digits of a `\\u` escape. -/\ndef unicodeEscapeDigits : Nat := %d\n\n", n, n)
	fmt.Fprintf(&t.out, "/-- `code = (code << %d) | v`. -/\ndef unicodeEscapeShift : Nat := %d\n\n", shift, shift)
	fmt.Fprintf(&t.hash, "unicode escape: %d digits, shift %d\n", n, shift)

	// the chain of tests on an unescaped rune: the statement after `if isEscaped {…}` in the main loop
	var mainLoop *ast.ForStmt
	for _, f := range forsOf(fd.Body) {
		if f.Init == nil && f.Post == nil && f.Pos() < sw.Pos() && sw.End() < f.End() {
			mainLoop = f
		}
	}
	if mainLoop == nil || len(mainLoop.Body.List) != 2 {
		t.fail(fd, "consumeStringValue: expected the main loop body to be `if isEscaped {…}` followed by one if-else chain")
	}
	if first, ok := mainLoop.Body.List[0].(*ast.IfStmt); !ok || t.src(first.Cond) != "isEscaped" || first.Else != nil {
		t.fail(mainLoop, "consumeStringValue: the main loop does not start with `if isEscaped {…}`")
	}
	chain, ok := mainLoop.Body.List[1].(*ast.IfStmt)
	if !ok {
		t.fail(mainLoop, "consumeStringValue: the second statement of the main loop is not an if-else chain")
	}
	var conds []ast.Expr
	for c := chain; ; {
		if c.Init != nil {
			t.fail(c, "consumeStringValue: if with an init clause in the character chain")
		}
		conds = append(conds, c.Cond)
		next, ok := c.Else.(*ast.IfStmt)
		if !ok {
			if c.Else == nil {
				t.fail(c, "consumeStringValue: the character chain has no final else")
			}
			break
		}
		c = next
	}
	{
		var nodes []ast.Node
		for _, c := range conds {
			nodes = append(nodes, c)
		}
		t.comment("consumeStringValue: the conditions of the if-else chain on an unescaped rune, in order", nodes...)
		e.used = map[string]kind{}
		var b strings.Builder
		ind := "  "
		for i, c := range conds {
			fmt.Fprintf(&b, "%sif %s then %d\n%selse\n", ind, e.boolExpr(c), i, ind)
			ind += "  "
		}
		fmt.Fprintf(&b, "%s%d\n", ind, len(conds))
		fmt.Fprintf(&t.out, "def stringCharCase%s : Nat :=\n%s\n", paramList(e.params()), b.String())
	}
	// inside the chain: CRLF in a block string (branch of the line-terminator test), the `\"""` escape (branch of
	// the backslash test)
	{
		var branches []*ast.BlockStmt
		for c := chain; ; {
			branches = append(branches, c.Body)
			next, ok := c.Else.(*ast.IfStmt)
			if !ok {
				break
			}
			c = next
		}
		var crlf *ast.IfStmt
		for _, s := range ifsOf(branches[0]) {
			if callsMethod(s.Cond, e.recv, "consumeRune") {
				if crlf != nil {
					t.fail(s, "consumeStringValue: two conditions consume a rune in the line-terminator branch")
				}
				crlf = s
			}
		}
		if crlf == nil {
			t.fail(branches[0], "consumeStringValue: no `if s.consumeRune() == … && …` in the line-terminator branch")
		}
		e.allowConsume = true
		t.cond(e, "stringCRLF", "consumeStringValue, line terminator inside a block string: after consuming one rune (`consumed`), a second one is consumed (and appended) iff", crlf.Cond)
		e.allowConsume = false
		if len(branches) < 2 {
			t.fail(chain, "consumeStringValue: the character chain has no backslash branch")
		}
		var quote []string
		nhp := 0
		ast.Inspect(branches[1], func(n ast.Node) bool {
			c, ok := n.(*ast.CallExpr)
			if !ok || t.src(c.Fun) != "bytes.HasPrefix" || len(c.Args) != 2 {
				return true
			}
			nhp++
			conv, ok := c.Args[1].(*ast.CallExpr)
			if !ok || t.src(conv.Fun) != "[]byte" || len(conv.Args) != 1 || t.src(c.Args[0]) != e.recv+".src["+e.recv+".offset:]" {
				t.fail(c, "consumeStringValue: bytes.HasPrefix is not of the form bytes.HasPrefix(s.src[s.offset:], []byte(\"…\"))")
			}
			l, ok := conv.Args[0].(*ast.BasicLit)
			if !ok || l.Kind != token.STRING {
				t.fail(c, "consumeStringValue: bytes.HasPrefix argument is not a string literal")
			}
			str, err := strconv.Unquote(l.Value)
			if err != nil {
				t.fail(l, "string literal %s", l.Value)
			}
			for _, r := range str {
				quote = append(quote, fmt.Sprint(int(r)))
			}
			return true
		})
		if nhp != 1 {
			t.fail(branches[1], "consumeStringValue: expected exactly one bytes.HasPrefix test in the backslash branch (found %d)", nhp)
		}
		fmt.Fprintf(&t.out, "/-- In a block string a backslash is an escape iff the source continues with this text\n    (`bytes.HasPrefix(s.src[s.offset:], …)`; code points). -/\ndef blockEscapedText : List Nat := [%s]\n\n", strings.Join(quote, ", "))
		fmt.Fprintf(&t.hash, "block escape %v\n", quote)
	}
	// opening / closing triple quote, the loop condition
	var quoteTests []*ast.IfStmt
	for _, s := range ifsOf(fd.Body) {
		if callsMethod(s.Cond, e.recv, "peek") {
			quoteTests = append(quoteTests, s)
		}
	}
	if len(quoteTests) != 2 {
		t.fail(fd, "consumeStringValue: expected two conditions using s.peek() (opening and closing triple quote), found %d", len(quoteTests))
	}
	t.cond(e, "blockOpens", "consumeStringValue: after the first quote, a block string starts iff", quoteTests[0].Cond)
	t.cond(e, "blockCloses", "consumeStringValue: after a quote inside a block string, the string ends iff", quoteTests[1].Cond)
}

// blockFacts: the pure pieces of blockStringValue (string_value.go).
func (t *tr) blockFacts() {
	t.out.WriteString("/-! ## string_value.go: blockStringValue -/\n\n")
	fd := t.fn("scanner.blockStringValue")
	e := t.newEnv("scanner", fd)
	// string constants of the ReplaceAll / Split / Join calls, in source order
	var consts []string
	ast.Inspect(fd.Body, func(n ast.Node) bool {
		c, ok := n.(*ast.CallExpr)
		if !ok {
			return true
		}
		name := t.src(c.Fun)
		switch name {
		case "strings.ReplaceAll", "strings.Split", "strings.Join":
			var parts []string
			for _, a := range c.Args[1:] {
				l, ok := a.(*ast.BasicLit)
				if !ok || l.Kind != token.STRING {
					t.fail(a, "blockStringValue: argument of %s is not a string literal", name)
				}
				str, err := strconv.Unquote(l.Value)
				if err != nil {
					t.fail(a, "string literal %s", l.Value)
				}
				var cps []string
				for _, r := range str {
					cps = append(cps, fmt.Sprint(int(r)))
				}
				parts = append(parts, "["+strings.Join(cps, ", ")+"]")
			}
			consts = append(consts, fmt.Sprintf("(%q, [%s])", strings.TrimPrefix(name, "strings."), strings.Join(parts, ", ")))
			fmt.Fprintf(&t.hash, "block %s %v\n", name, parts)
		}
		return true
	})
	t.out.WriteString("/-- The calls of strings.ReplaceAll / Split / Join in blockStringValue, in source order, with their string\n    literal arguments as code points. -/\n")
	fmt.Fprintf(&t.out, "def blockStringCalls : List (String × List (List Nat)) :=\n  [%s]\n\n", strings.Join(consts, ", "))

	// `commonIndent := -1`
	init := int64(0)
	found := false
	for _, st := range fd.Body.List {
		if a, ok := st.(*ast.AssignStmt); ok && a.Tok == token.DEFINE && len(a.Lhs) == 1 && t.src(a.Lhs[0]) == "commonIndent" {
			v := e.expr(a.Rhs[0])
			if !v.isConst {
				t.fail(a, "blockStringValue: commonIndent is not initialised with a constant")
			}
			init, found = v.c, true
		}
	}
	if !found {
		t.fail(fd, "blockStringValue: no `commonIndent := <constant>`")
	}
	fmt.Fprintf(&t.out, "/-- `commonIndent := %d`: the value meaning \"no line seen yet\". -/\ndef blockNoIndent : Int := %s\n\n", init, lit(init))
	fmt.Fprintf(&t.hash, "block commonIndent init %d\n", init)

	ifs, fs := ifsOf(fd.Body), forsOf(fd.Body)
	if len(ifs) != 7 || len(fs) != 1 {
		t.fail(fd, "blockStringValue: expected 7 if statements and 1 `for cond` loop outside function literals (found %d and %d); the conditions are extracted by position", len(ifs), len(fs))
	}
	e.locals["r"] = val{lean: "r", k: kRune}
	e.locals["indent"] = val{lean: "indent", k: kInt}
	e.locals["commonIndent"] = val{lean: "commonIndent", k: kInt}
	e.locals["i"] = val{lean: "i", k: kInt}
	e.locals["len(line)"] = val{lean: "lineLen", k: kInt}
	e.locals["len(lines)"] = val{lean: "nLines", k: kInt}
	if br, ok := ifs[0].Body.List[0].(*ast.BranchStmt); !ok || br.Tok != token.BREAK {
		t.fail(ifs[0], "blockStringValue: the first if statement does not break out of the indentation loop")
	}
	t.cond(e, "blockIndentEnds", "blockStringValue: the count of leading white space of a line stops at the first rune with", ifs[0].Cond)
	t.cond(e, "blockIndentUpdates", "blockStringValue: a line (other than the first) lowers commonIndent iff", ifs[1].Cond)
	t.cond(e, "blockRemoveIndent", "blockStringValue: indentation is removed at all iff", ifs[2].Cond)
	t.cond(e, "blockLineCut", "blockStringValue: line i loses its first commonIndent bytes iff", ifs[3].Cond)
	t.cond(e, "blockLineEmptied", "blockStringValue: otherwise line i becomes empty iff", ifs[4].Cond)
	t.cond(e, "blockStripLoop", "blockStringValue: the blank-line stripping loop runs while", fs[0].Cond)
	// the two strings.IndexFunc(lines[…], func(r rune) bool { return pred }) == -1 tests
	np := 0
	var rewrite func(x ast.Expr) ast.Expr
	rewrite = func(x ast.Expr) ast.Expr {
		switch x := x.(type) {
		case *ast.ParenExpr:
			return &ast.ParenExpr{X: rewrite(x.X)}
		case *ast.UnaryExpr:
			return &ast.UnaryExpr{Op: x.Op, X: rewrite(x.X)}
		case *ast.BinaryExpr:
			if c, ok := x.X.(*ast.CallExpr); ok && t.src(c.Fun) == "strings.IndexFunc" && x.Op == token.EQL && t.src(x.Y) == "-1" && len(c.Args) == 2 {
				fl, ok := c.Args[1].(*ast.FuncLit)
				if !ok || len(fl.Body.List) != 1 || len(fl.Type.Params.List) != 1 || len(fl.Type.Params.List[0].Names) != 1 ||
					t.src(fl.Type.Params.List[0].Type) != "rune" {
					t.fail(c, "blockStringValue: strings.IndexFunc without a `func(r rune) bool { return … }` literal")
				}
				ret, ok := fl.Body.List[0].(*ast.ReturnStmt)
				if !ok || len(ret.Results) != 1 {
					t.fail(fl, "blockStringValue: predicate literal is not a single return")
				}
				np++
				pe := t.newEnv("scanner", fd)
				pe.locals[fl.Type.Params.List[0].Names[0].Name] = val{lean: "r", k: kRune}
				var which string
				switch t.src(c.Args[0]) {
				case "lines[0]":
					which = "firstLineBlank"
				case "lines[len(lines)-1]":
					which = "lastLineBlank"
				default:
					t.fail(c, "blockStringValue: strings.IndexFunc on %s (expected lines[0] or lines[len(lines)-1])", t.src(c.Args[0]))
				}
				t.cond(pe, fmt.Sprintf("blockNotBlank%d", np), "blockStringValue: a line is blank iff no rune of it satisfies (strings.IndexFunc(…) == -1; line: "+t.src(c.Args[0])+")", ret.Results[0])
				e.locals[which] = val{lean: which, k: kBool}
				return ast.NewIdent(which)
			}
			return &ast.BinaryExpr{X: rewrite(x.X), Op: x.Op, Y: rewrite(x.Y)}
		}
		return x
	}
	c6, c7 := rewrite(ifs[5].Cond), rewrite(ifs[6].Cond)
	if np != 2 {
		t.fail(fd, "blockStringValue: expected two strings.IndexFunc(…) == -1 tests in the stripping loop (found %d)", np)
	}
	t.cond(e, "blockStripFirst", "blockStringValue: the first line is dropped iff (firstLineBlank: no rune of lines[0] satisfies blockNotBlank1)", c6)
	t.cond(e, "blockStripLast", "blockStringValue: otherwise the last line is dropped iff (lastLineBlank: no rune of lines[len(lines)-1] satisfies blockNotBlank2)", c7)
}

func loopBound(f *ast.ForStmt) (int64, bool) {
	in, ok := f.Init.(*ast.AssignStmt)
	if !ok || in.Tok != token.DEFINE || len(in.Lhs) != 1 {
		return 0, false
	}
	id, ok := in.Lhs[0].(*ast.Ident)
	if !ok {
		return 0, false
	}
	if l, ok := in.Rhs[0].(*ast.BasicLit); !ok || l.Value != "0" {
		return 0, false
	}
	c, ok := f.Cond.(*ast.BinaryExpr)
	if !ok || c.Op != token.LSS {
		return 0, false
	}
	if x, ok := c.X.(*ast.Ident); !ok || x.Name != id.Name {
		return 0, false
	}
	l, ok := c.Y.(*ast.BasicLit)
	if !ok || l.Kind != token.INT {
		return 0, false
	}
	n, err := strconv.ParseInt(l.Value, 0, 64)
	if err != nil {
		return 0, false
	}
	p, ok := f.Post.(*ast.IncDecStmt)
	if !ok || p.Tok != token.INC {
		return 0, false
	}
	if x, ok := p.X.(*ast.Ident); !ok || x.Name != id.Name {
		return 0, false
	}
	return n, true
}

// ---------------------------------------------------------------------------------------------
// loading

func (t *tr) load(dir, pkg string, only ...string) []*ast.File {
	ents, err := os.ReadDir(dir)
	if err != nil {
		t.fail(nil, "%v", err)
	}
	var files []*ast.File
	for _, en := range ents {
		n := en.Name()
		if en.IsDir() || !strings.HasSuffix(n, ".go") || strings.HasSuffix(n, "_test.go") {
			continue
		}
		if len(only) > 0 {
			keep := false
			for _, o := range only {
				keep = keep || o == n
			}
			if !keep {
				continue
			}
		}
		f, err := parser.ParseFile(t.fset, filepath.Join(dir, n), nil, parser.ParseComments)
		if err != nil {
			t.fail(nil, "%v", err)
		}
		if f.Name.Name != pkg {
			t.fail(f, "package %s in %s (expected %s)", f.Name.Name, dir, pkg)
		}
		files = append(files, f)
	}
	if len(files) == 0 {
		t.fail(nil, "no Go files in %s", dir)
	}
	for _, f := range files {
		for _, d := range f.Decls {
			switch d := d.(type) {
			case *ast.FuncDecl:
				key := pkg + "." + d.Name.Name
				if d.Recv != nil && len(d.Recv.List) == 1 {
					key = pkg + "." + recvTypeName(d.Recv.List[0].Type) + "." + d.Name.Name
				}
				if _, dup := t.funcs[key]; dup {
					t.fail(d, "%s is declared twice (build-tagged variants are not translated)", key)
				}
				t.funcs[key] = d
			case *ast.GenDecl:
				switch d.Tok {
				case token.CONST:
					t.constDecl(pkg, d)
				case token.TYPE:
					for _, s := range d.Specs {
						ts := s.(*ast.TypeSpec)
						if id, ok := ts.Type.(*ast.Ident); ok {
							t.consts[pkg+".#"+ts.Name.Name] = constVal{typ: id.Name}
						}
						if st, ok := ts.Type.(*ast.StructType); ok && pkg == "scanner" && ts.Name.Name == "Scanner" {
							for _, fl := range st.Fields.List {
								if k, ok := kindOfType(t.src(fl.Type)); ok {
									for _, n := range fl.Names {
										t.fields[n.Name] = k
									}
								}
							}
						}
					}
				}
			}
		}
	}
	return files
}

func (t *tr) constDecl(pkg string, d *ast.GenDecl) {
	var lastVals []ast.Expr
	var lastType string
	for i, s := range d.Specs {
		vs := s.(*ast.ValueSpec)
		vals, typ := vs.Values, ""
		if vs.Type != nil {
			typ = t.src(vs.Type)
		}
		if len(vals) == 0 {
			vals, typ = lastVals, lastType
		} else {
			lastVals, lastType = vals, typ
		}
		for j, n := range vs.Names {
			if n.Name == "_" {
				continue
			}
			if j >= len(vals) {
				continue
			}
			func() {
				defer func() {
					if p := recover(); p != nil {
						if _, ok := p.(cannot); ok {
							return // a constant the translation does not need (strings, floats …)
						}
						panic(p)
					}
				}()
				e := &env{t: t, pkg: pkg, locals: map[string]val{}, iota: int64(i), used: map[string]kind{}}
				v := e.expr(vals[j])
				if v.isConst {
					t.consts[pkg+"."+n.Name] = constVal{v: v.c, typ: typ}
					t.order[pkg] = append(t.order[pkg], n.Name)
				}
			}()
		}
	}
}

func goroot() string {
	if out, err := exec.Command("go", "env", "GOROOT").Output(); err == nil && strings.TrimSpace(string(out)) != "" {
		return strings.TrimSpace(string(out))
	}
	return runtime.GOROOT()
}

func translate(repo string, parserOnly bool) (out string, err error) {
	t := &tr{fset: token.NewFileSet(), funcs: map[string]*ast.FuncDecl{}, fields: map[string]kind{},
		consts: map[string]constVal{}, order: map[string][]string{}, pure: map[string]kind{}}
	defer func() {
		if p := recover(); p != nil {
			if c, ok := p.(cannot); ok {
				err = fmt.Errorf("cannot translate: %s", c.msg)
				return
			}
			panic(p)
		}
	}()
	t.load(filepath.Join(goroot(), "src", "unicode", "utf8"), "utf8", "utf8.go")
	if c, ok := t.consts["utf8.RuneError"]; !ok || c.v != 0xFFFD {
		t.fail(nil, "utf8.RuneError not found in $GOROOT/src/unicode/utf8/utf8.go")
	}
	t.load(filepath.Join(repo, "graphql", "token"), "token")
	if parserOnly {
		// C06/C12-facing facts: a separate output that no C07 obligation depends on
		t.load(filepath.Join(repo, "graphql", "parser"), "parser", "parser.go")
		t.parserFacts()
		var b strings.Builder
		b.WriteString("/-\n  GENERATED by `/verif/tools/c07facts -parser` from graphql/parser/parser.go (and the constants of\n  graphql/token/token.go) — not built or audited by any check; offered to C06 / C12 (design-notes/C07.md).\n  Core Lean, no imports. Token kinds are the values of token.go's constants (INVALID = 0 … COMMA = 10).\n-/\nnamespace ApiFu.C06.GeneratedParserFacts\n\n")
		b.WriteString(t.out.String())
		h := sha256.Sum256(t.hash.Bytes())
		fmt.Fprintf(&b, "/-- sha256 of the translated fragments (evidence only). -/\ndef sourceSha256 : String := %q\n", hex.EncodeToString(h[:]))
		b.WriteString("\nend ApiFu.C06.GeneratedParserFacts\n")
		return b.String(), nil
	}
	t.load(filepath.Join(repo, "graphql", "scanner"), "scanner")

	t.tokenFacts()
	t.scannerFacts()

	var b strings.Builder
	b.WriteString("/-\n  GENERATED by /verif/tools/c07facts from graphql/scanner/*.go and graphql/token/token.go of the\n  repository under check (nothing else is read) — do not edit; regenerated at the\n  start of every `./check C07` (pre_cmds of checks/C07.json).\n")
	b.WriteString("  Literal translation: runes and ints are `Int` (`-1` = end of input / error value), rune arithmetic is\n  wrapped to 32 bits (`wrap32`), conditions are `Bool`. `PropsGenerated.lean` proves every definition here\n  equal, for all runes, to the corresponding leaf of the hand-written model `Model.lean`.\n-/\n")
	b.WriteString("import ApiFu.C07.GoInt\n\nnamespace ApiFu.C07.Generated\nopen ApiFu.C07\n\n")
	b.WriteString(t.out.String())
	h := sha256.Sum256(t.hash.Bytes())
	fmt.Fprintf(&b, "/-- sha256 of the source text of the translated fragments (evidence only). -/\ndef sourceSha256 : String := %q\n", hex.EncodeToString(h[:]))
	b.WriteString("\nend ApiFu.C07.Generated\n")
	return b.String(), nil
}

// parserFacts: C06-facing constants (C06's files are not C07's; the facts live here).
func (t *tr) parserFacts() {
	t.out.WriteString("/-! ## graphql/parser/parser.go -/\n\n")
	c, ok := t.consts["parser.maxRecursion"]
	if !ok {
		t.fail(nil, "parser.maxRecursion not found")
	}
	fmt.Fprintf(&t.out, "/-- `const maxRecursion`. -/\ndef parserMaxRecursion : Int := %s\n\n", lit(c.v))
	fmt.Fprintf(&t.hash, "parser.maxRecursion=%d\n", c.v)
	fd := t.fn("parser.parser.enter")
	ifs := ifsOf(fd.Body)
	if len(ifs) != 1 || !strings.Contains(t.src(ifs[0].Body), "panic(") {
		t.fail(fd, "parser.enter: expected `p.recursion++` and one `if cond { panic(…) }`")
	}
	inc, ok := fd.Body.List[0].(*ast.IncDecStmt)
	if !ok || inc.Tok != token.INC || t.src(inc.X) != "p.recursion" {
		t.fail(fd, "parser.enter: does not start with p.recursion++")
	}
	// the condition reads p.recursion (an int) and the constant
	e := &env{t: t, pkg: "parser", locals: map[string]val{}, iota: -1, used: map[string]kind{}}
	cond := ifs[0].Cond
	be, ok := cond.(*ast.BinaryExpr)
	if !ok || t.src(be.X) != "p.recursion" {
		t.fail(cond, "parser.enter: condition is not a comparison of p.recursion")
	}
	e.locals["recursion"] = val{lean: "recursion", k: kInt}
	cmp := &ast.BinaryExpr{X: ast.NewIdent("recursion"), Op: be.Op, Y: be.Y}
	body := e.boolExpr(cmp)
	t.comment("parser.enter (recursion is the value *after* p.recursion++): the parser gives up iff", cond)
	fmt.Fprintf(&t.out, "def parserTooDeep (recursion : Int) : Bool :=\n  %s\n\n", body)
	// newParser: the scanner mode
	np := t.fn("parser.newParser")
	mode := ""
	ast.Inspect(np, func(n ast.Node) bool {
		if c, ok := n.(*ast.CallExpr); ok && t.src(c.Fun) == "scanner.New" && len(c.Args) == 2 {
			mode = t.src(c.Args[1])
		}
		return true
	})
	v, perr := strconv.ParseInt(mode, 0, 64)
	if perr != nil {
		t.fail(np, "newParser: scanner.New is not called with a literal mode (found %q)", mode)
	}
	fmt.Fprintf(&t.out, "/-- `scanner.New(src, %d)` in newParser: the parser reads the scanner in this mode. -/\ndef parserScannerMode : Nat := %d\n\n", v, v)
	fmt.Fprintf(&t.hash, "parser scanner mode=%d\n", v)
	// every token constant the parser mentions
	kinds := map[int64]bool{}
	for key, f := range t.funcs {
		if !strings.HasPrefix(key, "parser.") {
			continue
		}
		ast.Inspect(f, func(n ast.Node) bool {
			if sel, ok := n.(*ast.SelectorExpr); ok {
				if c, ok := t.consts[t.src(sel)]; ok && c.typ == "Token" {
					kinds[c.v] = true
				}
			}
			return true
		})
	}
	var ks []int64
	for k := range kinds {
		ks = append(ks, k)
	}
	sort.Slice(ks, func(a, b int) bool { return ks[a] < ks[b] })
	var kss []string
	for _, k := range ks {
		kss = append(kss, lit(k))
	}
	fmt.Fprintf(&t.out, "/-- The values of the `token.X` constants mentioned anywhere in parser.go (ascending). -/\ndef parserTokenKinds : List Int := [%s]\n\n", strings.Join(kss, ", "))
	fmt.Fprintf(&t.hash, "parser token kinds %v\n", ks)
	// parseValue: which AST node types each token kind can start
	pv := t.fn("parser.parser.parseValue")
	var vsw *ast.SwitchStmt
	ast.Inspect(pv.Body, func(n ast.Node) bool {
		if sw, ok := n.(*ast.SwitchStmt); ok && vsw == nil && sw.Tag != nil && t.src(sw.Tag) == "t.Token" {
			vsw = sw
			return false
		}
		return true
	})
	if vsw == nil {
		t.fail(pv, "parseValue: no `switch …; t.Token`")
	}
	type row struct {
		tok   int64
		nodes []string
	}
	var rows []row
	seenTok := map[int64]bool{}
	for _, c := range vsw.Body.List {
		cc := c.(*ast.CaseClause)
		set := map[string]bool{}
		ast.Inspect(cc, func(n ast.Node) bool {
			if cl, ok := n.(*ast.CompositeLit); ok {
				if ty := t.src(cl.Type); strings.HasPrefix(ty, "ast.") {
					set[strings.TrimPrefix(ty, "ast.")] = true
				}
			}
			return true
		})
		var nodes []string
		for n := range set {
			nodes = append(nodes, fmt.Sprintf("%q", n))
		}
		sort.Strings(nodes)
		for _, l := range cc.List {
			c, ok := t.consts[t.src(l)]
			if !ok || c.typ != "Token" {
				t.fail(l, "parseValue: case label %s is not a token constant", t.src(l))
			}
			if seenTok[c.v] {
				t.fail(l, "parseValue: duplicate case label")
			}
			seenTok[c.v] = true
			rows = append(rows, row{c.v, nodes})
		}
	}
	sort.Slice(rows, func(a, b int) bool { return rows[a].tok < rows[b].tok })
	var rs []string
	for _, r := range rows {
		rs = append(rs, fmt.Sprintf("(%s, [%s])", lit(r.tok), strings.Join(r.nodes, ", ")))
		fmt.Fprintf(&t.hash, "parseValue %d %v\n", r.tok, r.nodes)
	}
	t.out.WriteString("/-- parseValue's `switch t.Token`: for each token kind with a clause (ascending), the `ast.X` node types constructed\n    (composite literals) anywhere in that clause, sorted. Other kinds fall to the default clause (an error). -/\n")
	fmt.Fprintf(&t.out, "def parserValueDispatch : List (Int × List String) :=\n  [%s]\n\n", strings.Join(rs, ",\n   "))
}

func writeIfChanged(path string, content []byte) error {
	if old, err := os.ReadFile(path); err == nil && bytes.Equal(old, content) {
		return nil
	}
	tmp := path + fmt.Sprintf(".tmp%d", os.Getpid())
	if err := os.WriteFile(tmp, content, 0o644); err != nil {
		return err
	}
	return os.Rename(tmp, path)
}

func main() {
	repo := flag.String("repo", os.Getenv("VERIF_REPO"), "repository root (default $VERIF_REPO, then /repo)")
	out := flag.String("out", "", "Lean file to write (default: stdout)")
	fallback := flag.String("fallback", "", "file copied to -out when the source cannot be translated")
	parserOnly := flag.Bool("parser", false, "emit only the facts of graphql/parser/parser.go (for C06/C12; not part of C07's check)")
	flag.Parse()
	if *repo == "" {
		*repo = "/repo"
	}
	text, err := translate(*repo, *parserOnly)
	if err != nil {
		fmt.Fprintln(os.Stderr, "c07facts:", err)
		if *fallback != "" && *out != "" {
			if fb, ferr := os.ReadFile(*fallback); ferr == nil {
				if werr := writeIfChanged(*out, fb); werr == nil {
					fmt.Fprintln(os.Stderr, "c07facts: wrote the fallback translation to", *out)
				}
			}
		}
		os.Exit(1)
	}
	if *out == "" {
		fmt.Print(text)
		return
	}
	if err := writeIfChanged(*out, []byte(text)); err != nil {
		fmt.Fprintln(os.Stderr, "c07facts:", err)
		os.Exit(1)
	}
}
