#!/bin/bash
# tools/safe_commit.sh "message" — runs every claimed check on the clean tree; stages everything except the files of
# properties whose check is currently red (a builder may be mid-edit), commits, and reports what was held back.
cd "$(dirname "$0")/.."
python3 tools/mkmanifest.py >/dev/null
out=$(LOGDIR=.build/logs-commit JOBS=${JOBS:-5} tools/run_all.sh 2>&1 | sort)
echo "$out" | awk '{print $1,$2,$3,$4}' | tr '\n' ';'; echo
red=$(echo "$out" | awk '$2!="exit=0" || $3!="0" {print $1}')
python3 tools/merge_design.py >/dev/null; python3 tools/gen_design_tables.py >/dev/null
git add -A
for p in $red; do
  l=$(echo $p | tr 'C' 'c')
  echo "holding back $p (red)"
  git reset -q -- harness/cmd/$l lean/ApiFu/$p checks/$p.json evidence/$p.json corpus/$p design-notes/$p.md known_findings.d/$p.json 2>/dev/null
done
git commit -qm "$1" && echo committed
# post-commit: build what was committed (not the working tree) the way MANIFEST.setup_cmd does
v=/tmp/vcommit-$$; rm -rf $v; mkdir -p $v
git archive HEAD | tar -x -C $v
mkdir -p $v/lean && cp -a lean/.lake $v/lean/ 2>/dev/null
if (cd $v && bash ./setup.sh >$v/setup.log 2>&1); then echo "committed tree: setup ok"; else echo "committed tree: SETUP FAILS"; grep -n "error" $v/setup.log | head; tail -5 $v/setup.log; fi
rm -rf $v
