#!/bin/bash
# tools/confirm_seed.sh <id> ... — confirms a seeded change in a scratch worktree: with the patch the repo builds,
# its whole test suite passes and the demonstration fails; without the patch the demonstration passes.
export GOFLAGS=-mod=mod GOPROXY=off GOSUMDB=off GOTOOLCHAIN=local
for id in "$@"; do
  d=/verif/seeded/$id; wt=/tmp/confirm-$id
  git -C /repo worktree add --detach $wt HEAD >/dev/null 2>&1
  demo_dir=$(python3 -c "import json;print(json.load(open('$d/meta.json')).get('demo_dir','.'))")
  demo_cmd=$(python3 -c "import json;print(json.load(open('$d/meta.json'))['demo_cmd'])")
  res=""
  ( cd $wt
    mkdir -p $demo_dir; cp $d/demo_test.go $demo_dir/zz_seed_demo_test.go
    if bash -c "$demo_cmd" >/tmp/confirm.log 2>&1; then res="$res demo-passes-without-patch:yes"; else res="$res demo-passes-without-patch:NO"; fi
    rm $demo_dir/zz_seed_demo_test.go
    if git apply --whitespace=nowarn $d/patch.diff 2>/dev/null; then
      if go build ./... >/tmp/confirm.log 2>&1 && go test -vet=off -count=1 ./... >>/tmp/confirm.log 2>&1; then res="$res suite-passes-with-patch:yes"; else res="$res suite-passes-with-patch:NO"; fi
      cp $d/demo_test.go $demo_dir/zz_seed_demo_test.go
      if bash -c "$demo_cmd" >/tmp/confirm.log 2>&1; then res="$res demo-fails-with-patch:NO"; else res="$res demo-fails-with-patch:yes"; fi
    else res="$res patch-applies:NO"; fi
    echo "$id$res"
    python3 - <<PY
import json
p='$d/meta.json'; m=json.load(open(p)); m['confirmed_by_coordinator']='$res'.strip(); json.dump(m,open(p,'w'),indent=1)
PY
  )
  git -C /repo worktree remove --force $wt
done
