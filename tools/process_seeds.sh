#!/bin/bash
# tools/process_seeds.sh Cnn — import the seeds a seeding agent left in /tmp/seed/Cnn-out, confirm each in a scratch
# worktree, run the property's quick check against each; prints one line per seed. Safe to run for several
# properties at once (own worktrees, RESULTS.json merged under a lock).
cd "$(dirname "$0")/.."
P=$1
ids=$(tools/import_seeds.sh $P)
[ -n "$ids" ] || { echo "$P: no seeds"; exit 0; }
tools/confirm_seed.sh $ids 2>&1 | grep -v '^WARNING\|^Preparing\|^HEAD'
tools/run_seeded.py $ids 2>&1 | grep -v '^WARNING'
