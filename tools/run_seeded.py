#!/usr/bin/env python3
"""Applies every seeded change under /verif/seeded/<id>/patch.diff to /repo in turn, runs the quick
check of the property it breaks (and optionally others), records whether a VIOLATION was reported,
and always restores /repo (git checkout -- . && git clean of files the patch added).
Usage: tools/run_seeded.py [id ...]      (no ids = all)      env TIER=quick|thorough
Writes seeded/RESULTS.json and prints a table."""
import glob, json, os, subprocess, sys, time
V = os.path.dirname(os.path.dirname(os.path.abspath(__file__)))
tier = os.environ.get("TIER", "quick")
ids = sys.argv[1:] or sorted(os.path.basename(os.path.dirname(p)) for p in glob.glob(os.path.join(V, "seeded", "*", "patch.diff")))
res_path = os.path.join(V, "seeded", "RESULTS.json")
results = json.load(open(res_path)) if os.path.exists(res_path) else {}
def sh(cmd, **kw):
    return subprocess.run(cmd, stdout=subprocess.PIPE, stderr=subprocess.STDOUT, text=True, **kw)
# the changed tree lives in a scratch worktree (VERIF_REPO), so that /repo itself is never disturbed while other
# checks run against it; the evidence of these runs goes to a scratch directory (VERIF_EVIDENCE)
WT = "/tmp/seedrun-%d/repo" % os.getpid()
os.makedirs(os.path.dirname(WT), exist_ok=True)
sh(["git", "-C", "/repo", "worktree", "add", "--detach", WT, "HEAD"])
env = dict(os.environ, VERIF_REPO=WT, VERIF_BUILD=os.path.join(V, ".build", "seeded-%d" % os.getpid()),
           VERIF_EVIDENCE=os.path.join(V, ".build", "seeded-evidence"))
try:
    for sid in ids:
        d = os.path.join(V, "seeded", sid)
        meta = json.load(open(os.path.join(d, "meta.json")))
        prop = os.environ.get("CHECK_AS") or meta["property"]   # CHECK_AS=Cmm: run a sibling property's check on this change
        sibling = prop != meta["property"]
        ap = sh(["git", "-C", WT, "apply", "--whitespace=nowarn", os.path.join(d, "patch.diff")])
        if ap.returncode != 0:
            ap = sh(["git", "-C", WT, "apply", "--3way", "--whitespace=nowarn", os.path.join(d, "patch.diff")])
        if ap.returncode != 0:
            print("%-10s patch does not apply: %s" % (sid, ap.stdout.strip()[:200]))
            if sibling:
                print("%-10s as %-4s %s  (%.0fs) %s" % (sid, prop, "CAUGHT" if lines else "missed", time.time() - t0, (why[0][:140] if why else "")))
                meta.setdefault("sibling_checks", {})[prop] = {"caught": bool(lines), "why": [w.split("] ", 1)[-1][:220] for w in why]}
                json.dump(meta, open(os.path.join(d, "meta.json"), "w"), indent=1)
                continue
            results[sid] = {"property": prop, "applied": False}
            sh(["git", "-C", WT, "reset", "-q", "--hard"]); sh(["git", "-C", WT, "clean", "-fdq"])
            continue
        try:
            t0 = time.time()
            r = sh([os.path.join(V, "check"), prop, "--tier", tier], cwd=V, env=env)
            lines = [l for l in r.stdout.splitlines() if l.startswith("VIOLATION")]
            why = [l for l in r.stdout.splitlines() if "violation:" in l][:2]
            if sibling:
                print("%-10s as %-4s %s  (%.0fs) %s" % (sid, prop, "CAUGHT" if lines else "missed", time.time() - t0, (why[0][:140] if why else "")))
                meta.setdefault("sibling_checks", {})[prop] = {"caught": bool(lines), "why": [w.split("] ", 1)[-1][:220] for w in why]}
                json.dump(meta, open(os.path.join(d, "meta.json"), "w"), indent=1)
                continue
            results[sid] = {"property": prop, "applied": True, "caught": bool(lines), "exit": r.returncode, "tier": tier,
                            "violation_lines": [l.replace(V + "/", "") for l in lines[:3]], "why": [w[:300] for w in why], "wall_s": round(time.time() - t0, 1)}
            print("%-10s %-4s %s  (%.0fs) %s" % (sid, prop, "CAUGHT" if lines else "missed", time.time() - t0, (why[0][:140] if why else "")))
            meta.setdefault("id", sid)
            meta["ran"] = ("seeding agent: with patch.diff applied `go build ./... && go test -vet=off -count=1 ./...` passes and demo_test.go fails; without it the demo passes "
                           "(re-confirmed by the coordinator in a scratch worktree, see confirmed_by_coordinator). "
                           "coordinator: patch applied to a scratch worktree of /repo's HEAD; VERIF_REPO=<worktree> ./check %s --tier %s; worktree removed" % (prop, tier))
            meta["caught_by_check"] = bool(lines)
            meta["caught_by"] = [w.split("] ", 1)[-1][:220] for w in why]
            json.dump(meta, open(os.path.join(d, "meta.json"), "w"), indent=1)
        finally:
            sh(["git", "-C", WT, "reset", "-q", "--hard"])
            sh(["git", "-C", WT, "clean", "-fdq"])
finally:
    sh(["git", "-C", "/repo", "worktree", "remove", "--force", WT])
    import shutil
    shutil.rmtree(os.path.dirname(WT), ignore_errors=True)
    shutil.rmtree(env["VERIF_BUILD"], ignore_errors=True)
import fcntl
with open(res_path + ".lock", "w") as lk:
    fcntl.flock(lk, fcntl.LOCK_EX)   # several runs may finish at the same time: merge under a lock
    cur = json.load(open(res_path)) if os.path.exists(res_path) else {}
    cur.update({k: results[k] for k in ids if k in results})
    json.dump(cur, open(res_path, "w"), indent=1, sort_keys=True)
