#!/usr/bin/env python3
"""Inserts design-notes/Cnn.md as an 'As built' block at the end of each '### Cnn —' section of DESIGN.md
(between <!-- as-built:Cnn --> markers; idempotent)."""
import os, re
V = os.path.dirname(os.path.dirname(os.path.abspath(__file__)))
p = os.path.join(V, "DESIGN.md")
s = open(p).read()
s = re.sub(r"\n<!-- as-built:(C\d+) -->.*?<!-- /as-built:\1 -->\n", "\n", s, flags=re.S)
heads = [(m.start(), m.group(1)) for m in re.finditer(r"^### (C\d\d) — ", s, flags=re.M)]
ends = []
for i, (pos, pid) in enumerate(heads):
    nxt = heads[i + 1][0] if i + 1 < len(heads) else s.index("\n## 8. ")
    ends.append((nxt, pid))
for end, pid in reversed(ends):
    note = os.path.join(V, "design-notes", pid + ".md")
    if not os.path.exists(note):
        continue
    body = open(note).read().strip()
    # demote headings of the note so that they nest under the property's section
    body = re.sub(r"^(#+) ", lambda m: "#" * min(6, len(m.group(1)) + 3) + " ", body, flags=re.M)
    block = "\n<!-- as-built:%s -->\n#### %s — as built\n\n%s\n<!-- /as-built:%s -->\n" % (pid, pid, body, pid)
    s = s[:end].rstrip("\n") + "\n" + block + "\n" + s[end:]
open(p, "w").write(s)
print("merged:", [pid for _, pid in ends if os.path.exists(os.path.join(V, "design-notes", pid + ".md"))])
